(* Model driver, distributed family: communication packages (C03/C04), distributed products (C02). *)
open Model
open Conv

let nats l = List.map nat_of_int l
let ints_of_nats l = List.map int_of_nat l

(* token helpers *)
let expect t s = let x = next t in if x <> s then failwith ("expected " ^ s ^ " got " ^ x)
let read_list t = let n = next_int t in next_ints t n

(* one ParComm dump:  R n p.. ptr.. [dup k ..] [idx k ..] size s  S n p.. ptr.. idx k .. size s *)
type cdata = { procs : int list; ptr : int list; dup : int list option; idx : int list option; size : int }
let read_data t =
  let n = next_int t in
  expect t "p"; let procs = next_ints t n in
  expect t "ptr"; let ptr = next_ints t (n + 1) in
  let dup = ref None and idx = ref None and size = ref 0 and fin = ref false in
  while not !fin do
    match next t with
    | "dup" -> let k = next_int t in dup := Some (next_ints t k)
    | "idx" -> let k = next_int t in idx := Some (next_ints t k)
    | "size" -> size := next_int t; fin := true
    | s -> failwith ("data token " ^ s)
  done;
  { procs; ptr; dup = !dup; idx = !idx; size = !size }

let counts ptr = let rec go = function a :: (b :: _ as tl) -> (b - a) :: go tl | _ -> [] in go ptr

(* standard package of one rank -> model pkg *)
let pkg_of (r : cdata) (s : cdata) : pkg =
  let sidx = match s.idx with Some l -> l | None -> [] in
  { recv_msgs = List.map2 (fun p c -> (nat_of_int p, nat_of_int c)) r.procs (counts r.ptr);
    send_msgs = List.map2 (fun p l -> (nat_of_int p, nats l)) s.procs (split_by_ptr s.ptr sidx) }

let str_ints l = String.concat " " (List.map string_of_int l)
let b2s b = if b then "1" else "0"

(* cid commchk P fc[P+1] {n cols}xP {n ids}xP  then per rank: R <data> S <data> *)
let run_commchk cid t =
  let p = next_int t in
  let fc = next_ints t (p + 1) in
  let colmaps = take p (fun () -> read_list t) in
  let ids = take p (fun () -> read_list t) in
  let big = next_int t in
  let dumps = take p (fun () -> expect t "R"; let r = read_data t in expect t "S"; let s = read_data t in (r, s)) in
  let w = List.map (fun (r, s) -> pkg_of r s) dumps in
  let ncol = List.map nats colmaps and nids = List.map nats ids in
  let lens = nats (List.map List.length ids) in
  Printf.printf "%s CHK pairs %s sizes %s range %s fwd %s rev %s\n" cid
    (b2s (pairs_ok w)) (b2s (sizes_ok w)) (b2s (in_range w lens))
    (b2s (fwd_ok w nids ncol (nat_of_int big))) (b2s (rev_ok w nids ncol));
  (* construction model with the observed arrival order *)
  let sigma q reqs =
    let obs = List.map (fun m -> int_of_nat (fst m)) (List.nth w (int_of_nat q)).send_msgs in
    let pos x = let rec go i = function [] -> 1000000 | y :: tl -> if x = y then i else go (i + 1) tl in go 0 obs in
    List.stable_sort (fun a b -> compare (pos (int_of_nat (fst a))) (pos (int_of_nat (fst b)))) reqs in
  let bw = build_world (nats fc) ncol sigma in
  Printf.printf "%s BUILD %s\n" cid (b2s (bw = w));
  (* forward / reverse on OCaml-int payloads (the extracted functions are polymorphic) *)
  let pr key f = Printf.printf "%s %s %s\n" cid key
      (String.concat " " (List.mapi (fun q _ -> "@" ^ string_of_int q ^ " " ^ str_ints (f q)) w)) in
  pr "FI" (fun q -> forward (-7) w ids (nat_of_int q));
  let blk = List.map (List.map (fun g -> (10 * g, 10 * g + 1))) ids in
  pr "FBI" (fun q -> List.concat (List.map (fun (a, b) -> [a; b]) (forward (-7, -7) w blk (nat_of_int q))));
  (* the same block exchange through the expanded package (Dist/ParBlock.v): two scalars per id *)
  let flat = List.map (fun l -> List.concat (List.map (fun (a, b) -> [a; b]) l)) blk in
  pr "FBX" (fun q -> forward (-7) (expand_world (nat_of_int 2) w) flat (nat_of_int q));
  let yi = List.mapi (fun pp cm -> List.mapi (fun j _ -> (pp + 1) * 100 + j) cm) colmaps in
  let ysel = List.mapi (fun pp cm -> List.map (fun c -> if (c + pp) mod 3 = 0 then -1 else c) cm) colmaps in
  pr "RSI" (fun q -> reverse (fun b a -> b + a) w yi (List.map (fun g -> 1000 * g) (List.nth ids q)) (nat_of_int q));
  pr "RM" (fun q -> reverse (fun b a -> if a > b then a else b) w yi (List.map (fun _ -> 0) (List.nth ids q)) (nat_of_int q));
  pr "RL" (fun q -> reverse (fun b a -> if a >= 0 then a else b) w ysel (List.map (fun _ -> -1) (List.nth ids q)) (nat_of_int q))

(* distributed matrix literal with explicit partitions: nr nc P frows[P+1] fcols[P+1] nnz (i j v)* *)
let read_parlit t =
  let nr = next_int t in let nc = next_int t in let p = next_int t in
  let frows = next_ints t (p + 1) in let fcols = next_ints t (p + 1) in
  let nnz = next_int t in
  let trip = take nnz (fun () -> let i = next_nat t in let j = next_nat t in let v = next_q t in ((i, j), v)) in
  (nr, nc, p, frows, fcols, trip)

let slice l a b = List.filteri (fun i _ -> i >= a && i < b) l
let slices l fs = let rec go = function a :: (b :: _ as tl) -> slice l a b :: go tl | _ -> [] in go fs
let pr_ranks cid key f l =
  Printf.printf "%s %s %s\n" cid key (String.concat " " (List.mapi (fun q v -> "@" ^ string_of_int q ^ " " ^ f v) l))

(* cid pspmv kind <ParLit> nx X.. nb B.. *)
let run_pspmv cid t =
  let kind = next t in
  let (nr, nc, p, frows, fcols, trip) = read_parlit t in
  let nx = next_int t in let x = next_qs t nx in
  let nb = next_int t in let b = next_qs t nb in
  let st = q_assemble_all trip (nats frows) (nats fcols) in
  let colmaps = List.map (fun rs -> rs.rs_colmap) st in
  let w = build_world (nats fcols) colmaps (fun _ r -> r) in
  let stale = q_of_int 777 in
  let res = match kind with
    | "mult" -> q_par_mult w st (slices x fcols)
    | "mult_append" -> q_par_mult_append w st (slices x fcols) (slices b frows)
    | "residual" -> q_par_residual w st (slices x fcols) (slices b frows)
    | "mult_T" -> q_par_mult_T w st (slices x frows)
                    (List.map (fun l -> List.map (fun _ -> stale) l) (slices (List.init nc (fun i -> i)) fcols))
    | k -> failwith ("kind " ^ k) in
  pr_ranks cid "V" qs_str res

(* cid tapchk P three_step {n cols}xP {n ids}xP big  then per rank:
     recv_size n L R.. S.. SS (R.. S..|none) G R.. S.. RR R.. S..   *)
let read_parcomm t =
  expect t "R"; let r = read_data t in expect t "S"; let s = read_data t in (r, s)
let run_tapchk cid t =
  let p = next_int t in
  let three = next_int t = 1 in
  let colmaps = take p (fun () -> read_list t) in
  let ids = take p (fun () -> read_list t) in
  let big = next_int t in
  let idx_of (r : cdata) = match r.idx with Some l -> nats l | None -> [] in
  let dup_of (r : cdata) = match r.dup, r.idx with
    | Some ptr, Some ix -> List.map nats (split_by_ptr ptr ix)
    | _ -> [] in
  let ranks = take p (fun () ->
      expect t "recv_size"; let n = next_int t in
      expect t "L"; let (lr, ls) = read_parcomm t in
      expect t "SS";
      let sdup = ref [] in
      let spk = (match t.rest with
          | "none" :: _ -> ignore (next t); nopkg
          | _ -> let (sr, ss) = read_parcomm t in sdup := dup_of sr; pkg_of sr ss) in
      expect t "G"; let (gr, gs) = read_parcomm t in
      expect t "RR"; let (rr, rs) = read_parcomm t in
      { tL = pkg_of lr ls; tL_pos = idx_of lr; tS = spk; tG = pkg_of gr gs; tR = pkg_of rr rs; tR_pos = idx_of rr;
        t_size = nat_of_int n; tS_dup = !sdup; tG_dup = dup_of gr }) in
  let tw = { three_step = three; t_ranks = ranks } in
  let ncol = List.map nats colmaps and nids = List.map nats ids in
  Printf.printf "%s CHK tapfwd %s taprev %s\n" cid (b2s (tap_fwd_ok tw nids ncol (nat_of_int big))) (b2s (tap_rev_ok tw nids ncol));
  let pr key f = Printf.printf "%s %s %s\n" cid key
      (String.concat " " (List.mapi (fun q _ -> "@" ^ string_of_int q ^ " " ^ str_ints (f q)) ranks)) in
  pr "FI" (fun q -> tap_forward (-7) tw ids (nat_of_int q));
  let blk = List.map (List.map (fun g -> (10 * g, 10 * g + 1))) ids in
  pr "FBI" (fun q -> List.concat (List.map (fun (a, b) -> [a; b]) (tap_forward (-7, -7) tw blk (nat_of_int q))));
  (* reverse exchanges: same payloads as drv_comm *)
  let yi = List.mapi (fun pp cm -> List.mapi (fun j _ -> (pp + 1) * 100 + j) cm) colmaps in
  let ysel = List.mapi (fun pp cm -> List.map (fun c -> if (c + pp) mod 3 = 0 then -1 else c) cm) colmaps in
  let yz = List.mapi (fun pp cm -> List.mapi (fun j c -> if (c + pp + j) mod 3 = 0 then 0 else -(pp + 1) * 10 - j) cm) colmaps in
  let add a b = a + b and mx b a = if a > b then a else b and sel b a = if a >= 0 then a else b in
  pr "RSI" (fun q -> tap_reverse (-7) add 0 add tw yi (List.map (fun g -> 1000 * g) (List.nth ids q)) (nat_of_int q));
  pr "RM" (fun q -> tap_reverse (-7) mx 0 mx tw yi (List.map (fun _ -> 0) (List.nth ids q)) (nat_of_int q));
  pr "RL" (fun q -> tap_reverse (-7) sel (-1) sel tw ysel (List.map (fun _ -> -1) (List.nth ids q)) (nat_of_int q));
  pr "RMN" (fun q -> tap_reverse (-7) mx (-1000000) mx tw yz (List.map (fun _ -> -1000) (List.nth ids q)) (nat_of_int q))

(* cid tracechk P fc[P+1] K {{n cols}xP}xK  then per rank: nev (B | S dst tag | R src tag)*  *)
let run_tracechk cid t =
  let p = next_int t in
  let fc = nats (next_ints t (p + 1)) in
  let k = next_int t in
  let fams = take k (fun () -> take p (fun () -> nats (read_list t))) in
  let prog = List.concat (List.map (fun colmaps ->
      let dests r = List.map fst (group_by_owner fc (List.nth colmaps (int_of_nat r))) in
      [Barrier; Phase (nat_of_int 12345, dests)]) fams) in
  let evs = take p (fun () ->
      let n = next_int t in
      take n (fun () -> match next t with
          | "B" -> EvBarrier
          | "S" -> let d = next_nat t in let tg = next_nat t in EvSend (d, tg)
          | "R" -> let s = next_nat t in let tg = next_nat t in EvRecvAny (s, tg)
          | x -> failwith ("event " ^ x))) in
  Printf.printf "%s TRACE phases_ok %s in_range %s ranks %s\n" cid (b2s (phases_ok prog))
    (b2s (dests_in_rangeb (nat_of_int p) prog))
    (String.concat " " (List.mapi (fun r e -> b2s (trace_ok (nat_of_int p) prog (nat_of_int r) e)) evs))


(* cid pstruct what <ParLit A> [<ParLit B>]   what: transpose | add | subtract | conv k op..   (C07, distributed part)
   output per rank: fr nr fc nc ON <rows> OFF <rows> CM <cols>, a row = "len (col val)*" in storage order *)
let rows_str rows =
  String.concat " " (List.map (fun r -> String.concat " " (string_of_int (List.length r) ::
    List.map (fun (c, v) -> string_of_int (int_of_nat c) ^ " " ^ q_str v) r)) rows)
let rs_str (rs : qc rank_state) =
  Printf.sprintf "%d %d %d %d ON %d %s OFF %d %s CM %d %s"
    (int_of_nat rs.rs_fr) (int_of_nat rs.rs_nr) (int_of_nat rs.rs_fc) (int_of_nat rs.rs_nc)
    (List.length rs.rs_on.csr_rows) (rows_str rs.rs_on.csr_rows)
    (List.length rs.rs_off.csr_rows) (rows_str rs.rs_off.csr_rows)
    (List.length rs.rs_colmap) (str_ints (ints_of_nats rs.rs_colmap))
type anyrank = RCsr of qc rank_state | RCoo of qc rank_coo | RCsc of qc rank_csc
let conv_step (r : anyrank) (op : string) : anyrank =
  match r, op with
  | RCsr x, "to_coo" -> RCoo (q_par_csr_to_coo x) | RCsr x, "to_csc" -> RCsc (q_par_csr_to_csc x)
  | RCsr x, ("to_csr" | "copy") -> RCsr (q_par_csr_to_csr x)
  | RCoo x, "to_csr" -> RCsr (q_par_coo_to_csr x) | RCoo x, "to_csc" -> RCsc (q_par_coo_to_csc x)
  | RCoo x, ("to_coo" | "copy") -> RCoo (q_par_coo_to_coo x)
  | RCsc x, "to_csr" -> RCsr (q_par_csc_to_csr x) | RCsc x, "to_coo" -> RCoo (q_par_csc_to_coo x)
  | RCsc x, ("to_csc" | "copy") -> RCsc (q_par_csc_to_csc x)
  | _, o -> failwith ("conv op " ^ o)
let run_pstruct cid t =
  let what = next t in
  let ops = if what = "conv" then (let k = next_int t in take k (fun () -> next t)) else [] in
  let (_, _, _, frows, fcols, trip) = read_parlit t in
  let st = q_assemble_all trip (nats frows) (nats fcols) in
  let res = match what with
    | "transpose" ->
      let colmaps = List.map (fun rs -> rs.rs_colmap) st in
      let w = build_world (nats fcols) colmaps (fun _ r -> r) in
      List.mapi (fun q _ -> q_par_transpose w st (nat_of_int q)) st
    | "add" | "subtract" ->
      let (_, _, _, frows2, fcols2, trip2) = read_parlit t in
      let st2 = q_assemble_all trip2 (nats frows2) (nats fcols2) in
      List.map2 (fun a b -> q_par_add_local (what = "subtract") a b) st st2
    | "conv" ->
      List.map (fun rs ->
          match List.fold_left conv_step (RCsr rs) (ops @ ["to_csr"]) with RCsr x -> x | _ -> failwith "conv end") st
    | k -> failwith ("pstruct " ^ k) in
  pr_ranks cid "S" rs_str res

let run_case cid t =
  match next t with
  | "tracechk" -> run_tracechk cid t
  | "commchk" -> run_commchk cid t
  | "tapchk" -> run_tapchk cid t
  | "pspmv" -> run_pspmv cid t
  | "pstruct" -> run_pstruct cid t
  | op -> Printf.printf "%s UNSUPPORTED %s\n" cid op

let () =
  let ic = open_in Sys.argv.(1) in
  (try while true do
      let line = input_line ic in
      if String.length line > 0 && line.[0] <> '#' then begin
        let t = { rest = List.filter (fun s -> s <> "") (String.split_on_char ' ' line) } in
        let cid = next t in
        (try run_case cid t with
         | Failure m -> Printf.printf "%s ERR %s\n" cid m
         | Not_found -> Printf.printf "%s ERR notfound\n" cid
         | Invalid_argument m -> Printf.printf "%s ERR %s\n" cid m)
      end
    done with End_of_file -> ());
  close_in ic
