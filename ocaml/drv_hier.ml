(* Family `hier` (C08): runs the extracted hierarchy checker  hier_ok  and the extracted setup-loop model on
   the levels dumped by the implementation (written into the case file by props/C08.py, position-space
   global operators + per-rank sizes and name maps).
   case:  <cid> dump <max_coarse> <max_levels|-1> <fuel> <nlev> <nranks>  then per level
          n nnzA (i j v)*  hasP [nc nnzP (i j v)*]  edge tol
          per rank: grows gcols lrows lcols  row k ids..  on k ids..  off k ids..  x(3) b(3) tmp(3)
                    hasP [grows gcols lrows lcols  row k ids..  on k ids..  off k ids..]
   result lines:
          <cid> HOK <0|1>
          <cid> CL<l> sizes vectors maps cont [prolong galerkin coarsening]
          <cid> MODEL <nlev | NONE> sizes.. P parts of level0.. | coarse_n | coarse_sizes | coarse_displs *)
open Model
open Conv

let b2s b = if b then "1" else "0"

(* Peano numerals with shared tails: index k is the k-th cell of one chain, so that the thousands of row /
   column indices of a dump cost one pointer each instead of k words each *)
let nat_cache : nat array ref = ref [| O |]
let natm (k : int) : nat =
  if k < 0 then O else begin
    let c = !nat_cache in
    if k < Array.length c then c.(k) else begin
      let m = max (k + 1) (2 * Array.length c) in
      let a = Array.make m O in
      Array.blit c 0 a 0 (Array.length c);
      for i = Array.length c to m - 1 do a.(i) <- S a.(i - 1) done;
      nat_cache := a; a.(k)
    end
  end
let next_natm t = natm (next_int t)

(* rows of a csr from triples, in the order given; a row index beyond n makes the matrix ill-formed on purpose *)
let csr_of_triples n nc (tr : (int * int * qc) list) : qc csr =
  let m = List.fold_left (fun a (i, _, _) -> max a (i + 1)) n tr in
  let rows = Array.make m [] in
  List.iter (fun (i, j, v) -> rows.(i) <- (natm j, v) :: rows.(i)) tr;
  { csr_nr = natm n; csr_nc = natm nc; csr_rows = Array.to_list (Array.map List.rev rows) }

let read_triples t k = take k (fun () -> let i = next_int t in let j = next_int t in let v = next_q t in (i, j, v))
let read_map t = let k = next_int t in take k (fun () -> next_natm t)
let read_vd t = let g = next_natm t in let l = next_natm t in let s = next_natm t in { vd_global = g; vd_local = l; vd_store = s }

let read_rank t : rdump =
  let grows = next_natm t in let gcols = next_natm t in let lrows = next_natm t in let lcols = next_natm t in
  let rowm = read_map t in let onm = read_map t in let offm = read_map t in
  let x = read_vd t in let b = read_vd t in let tmp = read_vd t in
  let hasp = next_int t in
  let p = if hasp = 1 then begin
      let pg = next_natm t in let pc = next_natm t in let pl = next_natm t in let plc = next_natm t in
      let pr = read_map t in let po = read_map t in let pf = read_map t in
      Some { pd_grows = pg; pd_gcols = pc; pd_lrows = pl; pd_lcols = plc; pd_rowmap = pr; pd_onmap = po; pd_offmap = pf }
    end else None in
  { rd_grows = grows; rd_gcols = gcols; rd_lrows = lrows; rd_lcols = lcols; rd_rowmap = rowm; rd_onmap = onm;
    rd_offmap = offm; rd_x = x; rd_b = b; rd_tmp = tmp; rd_P = p }

let read_level t nranks : qc ldump =
  let n = next_int t in let nnz = next_int t in
  let a = csr_of_triples n n (read_triples t nnz) in
  let hasp = next_int t in
  let p = if hasp = 1 then begin
      let nc = next_int t in let k = next_int t in Some (csr_of_triples n nc (read_triples t k)) end else None in
  let edge = next_int t in let tol = next_q t in
  let ranks = take nranks (fun () -> read_rank t) in
  { ld_A = a; ld_P = p; ld_ranks = ranks; ld_edge = (edge = 1); ld_tol = tol }

let run_case cid (t : toks) =
  let op = next t in
  match op with
  | "dump" ->
    let mc = next_natm t in
    let mli = next_int t in
    let ml = if mli < 0 then None else Some (natm mli) in
    let fuel = next_natm t in
    let nlev = next_int t in let nranks = next_int t in
    let ls = take nlev (fun () -> read_level t nranks) in
    Printf.printf "%s HOK %s\n" cid (b2s (q_hier_ok mc ml ls));
    let arr = Array.of_list ls in
    Array.iteri (fun l lv ->
        let n = lv.ld_A.csr_nr in
        let cont = continue_cond mc ml n (natm (l + 1)) in
        let base = [ q_sizes_ok lv; q_vectors_ok lv; q_maps_ok lv; cont ] in
        let extra = if l + 1 < Array.length arr then begin
            let nx = arr.(l + 1) in
            let g = match lv.ld_P with Some p -> q_galerkin_ok lv.ld_tol lv.ld_A p nx.ld_A | None -> false in
            [ q_prolong_ok lv nx; g; q_coarsening_ok lv nx ] end else [] in
        Printf.printf "%s CL%d %s\n" cid l (String.concat " " (List.map b2s (base @ extra)))) arr;
    (* the setup loop of the model, coarsen := the implementation's own P of that level *)
    if nlev > 0 then begin
      let coarsen l _a _part =
        let li = int_of_nat l in
        if li >= Array.length arr then None else
          match arr.(li).ld_P with
          | None -> None
          | Some p ->
            let pc = List.map (fun r -> match r.rd_P with Some pd -> pd.pd_lcols | None -> O) arr.(li).ld_ranks in
            Some (p, pc) in
      let part0 = List.map (fun r -> r.rd_lrows) arr.(0).ld_ranks in
      match q_setup coarsen mc ml fuel arr.(0).ld_A part0 with
      | None -> Printf.printf "%s MODEL NONE\n" cid
      | Some lv ->
        let sizes = List.map (fun l -> int_of_nat l.lv_A.csr_nr) lv in
        let parts = List.map (fun l -> nats_str l.lv_part) lv in
        let vecs = List.map (fun l -> Printf.sprintf "%d:%s" (int_of_nat l.lv_x.v_global) (nats_str l.lv_x.v_local)) lv in
        Printf.printf "%s MODEL %d N %s PARTS %s X %s CN %d CS %s CD %s\n" cid (int_of_nat (num_levels lv))
          (ints_str sizes) (String.concat " ; " parts) (String.concat " ; " vecs)
          (int_of_nat (coarse_n lv)) (nats_str (coarse_sizes lv)) (nats_str (coarse_displs lv))
    end
  | _ -> Printf.printf "%s UNSUPPORTED %s\n" cid op

let () =
  let ic = open_in Sys.argv.(1) in
  (try while true do
      let line = input_line ic in
      if String.length line > 0 && line.[0] <> '#' then begin
        let t = { rest = List.filter (fun s -> s <> "") (String.split_on_char ' ' line) } in
        let cid = next t in
        (try run_case cid t with
         | Failure m -> Printf.printf "%s ERR %s\n" cid m
         | Not_found -> Printf.printf "%s ERR notfound\n" cid
         | Invalid_argument m -> Printf.printf "%s ERR %s\n" cid m);
        flush stdout
      end
    done with End_of_file -> ());
  close_in ic
