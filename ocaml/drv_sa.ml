(* Runs the extracted smoothed-aggregation model (C16) on a case file; same protocol as harness/drv_sa.cpp. *)
open Model
open Conv
open Mat

let csr_of (m : mat) : qc csr = as_csr m

(* distributed matrix literal -> (nr, nc, sizes, triples) *)
let parse_parlit (t : toks) =
  let nr = next_int t in let nc = next_int t in let p = next_int t in
  if p <= 0 then failwith "explicit partition required";
  let frow = next_ints t (p + 1) in let _fcol = next_ints t (p + 1) in
  let nnz = next_int t in
  let trip = take nnz (fun () -> let i = next_int t in let j = next_int t in let v = next_q t in ((nat_of_int i, nat_of_int j), v)) in
  let rec diffs = function a :: (b :: _ as tl) -> (b - a) :: diffs tl | _ -> [] in
  (nr, nc, diffs frow, trip)

let triples_of_rows first rows =
  List.concat (List.mapi (fun i r -> List.map (fun (c, v) ->
      Printf.sprintf "%d %d %s" (first + i) (int_of_nat c) (q_str v)) r) rows)

let rec split_sizes sizes l = match sizes with
  | [] -> []
  | m :: s' ->
    let rec go k l acc = if k = 0 then (List.rev acc, l) else (match l with [] -> (List.rev acc, []) | x :: r -> go (k - 1) r (x :: acc)) in
    let (a, rest) = go m l [] in a :: split_sizes s' rest

let run_case cid (t : toks) =
  let op = next t in
  match op with
  | "sa" | "fit" ->
    let n = next_int t in let na = next_int t in
    let agg = next_nats t n in let b = next_qs t n in let tol = next_q t in
    let (tm, r) = q_fit_candidates (nat_of_int na) agg b tol in
    Printf.printf "%s T %s\n" cid (mat_str (MCsr tm));
    Printf.printf "%s R %s\n" cid (qs_str r);
    if op = "sa" then begin
      let a = csr_of (parse_mat t) in
      let omega = next_q t in let k = next_nat t in
      let p = q_jacobi_prolongation a tm omega k in
      Printf.printf "%s P %s\n" cid (mat_str (MCsr p))
    end
  | "jac" ->
    let a = csr_of (parse_mat t) in let tm = csr_of (parse_mat t) in
    let omega = next_q t in let k = next_nat t in
    Printf.printf "%s P %s\n" cid (mat_str (MCsr (q_jacobi_prolongation a tm omega k)))
  | "psa" ->
    let (nr, nc, sizes, trip) = parse_parlit t in
    let agg = List.map (fun a -> if a < 0 then None else Some (nat_of_int a)) (next_ints t nr) in
    let b = next_qs t nr in
    let omega = next_q t in let k = next_int t in let _tap = next_int t in
    let nsizes = List.map nat_of_int sizes in
    let outs = q_par_fit_candidates nsizes agg b in
    let a = coo_to_csr { coo_nr = nat_of_int nr; coo_nc = nat_of_int nc; coo_ents = trip } in
    let prows =
      if k < 0 then None
      else Some ((q_par_jacobi_prolongation nsizes a (q_par_fit_T nsizes agg b) omega (nat_of_int k)).csr_rows) in
    let pblocks = match prows with None -> List.map (fun _ -> []) sizes | Some rows -> split_sizes sizes rows in
    let buf = Buffer.create 256 in
    let first = ref 0 in
    List.iteri (fun r (o, (sz, pb)) ->
        Buffer.add_string buf (Printf.sprintf " @%d NAGG %d TON %s TOFF %s R %s T %s" r
          (List.length o.ro_on) (nats_str o.ro_on) (nats_str o.ro_off) (qs_str o.ro_R)
          (String.concat " " (List.concat (List.map (fun (i, row) ->
              List.map (fun (c, v) -> Printf.sprintf "%d %d %s" (int_of_nat i) (int_of_nat c) (q_str v)) row) o.ro_rows))));
        if k >= 0 then Buffer.add_string buf (" P " ^ String.concat " " (triples_of_rows !first pb));
        first := !first + sz)
      (List.combine outs (List.combine sizes pblocks));
    Printf.printf "%s PSA%s\n" cid (Buffer.contents buf)
  | _ -> Printf.printf "%s UNSUPPORTED %s\n" cid op

let () =
  let ic = open_in Sys.argv.(1) in
  (try while true do
      let line = input_line ic in
      if String.length line > 0 && line.[0] <> '#' then begin
        let t = { rest = List.filter (fun s -> s <> "") (String.split_on_char ' ' line) } in
        let cid = next t in
        (try run_case cid t with
         | Failure m -> Printf.printf "%s ERR %s\n" cid m
         | Not_found -> Printf.printf "%s ERR notfound\n" cid
         | Invalid_argument m -> Printf.printf "%s ERR %s\n" cid m)
      end
    done with End_of_file -> ());
  close_in ic
