(* Runs the extracted repart model (C20) on a case file; prints the same lines as harness/drv_repart.cpp.
   case:  <cid> <op> <ParLit (skipped)> <op arguments> VIEWS P <view>*P [SCHED P*P ints] [TAU P*P ints]
   view:  first nloc gn ON P ptr.. I idx.. V vals.. OFF P .. I .. V .. CM colmap.. END          *)
open Model
open Conv

let is_kw s = s = "ON" || s = "OFF" || s = "P" || s = "I" || s = "V" || s = "CM" || s = "END" || s = "VIEWS"
              || s = "SCHED" || s = "TAU"
let expect t k = let s = next t in if s <> k then failwith ("expected " ^ k ^ " got " ^ s)
let rec until_kw t = match t.rest with
  | [] -> []
  | s :: _ when is_kw s -> []
  | s :: r -> t.rest <- r; s :: until_kw t

let parse_csr t nloc : (nat * qc) list list =
  expect t "P"; let ptr = List.map int_of_string (until_kw t) in
  expect t "I"; let idx = List.map (fun s -> nat_of_int (int_of_string s)) (until_kw t) in
  expect t "V"; let vals = List.map q_of_token (until_kw t) in
  if List.length ptr <> nloc + 1 then failwith "ptr length";
  split_by_ptr ptr (List.combine idx vals)

let parse_view t : qc rview =
  let first = next_int t in let nloc = next_int t in let _gn = next_int t in
  expect t "ON"; let on = parse_csr t nloc in
  expect t "OFF"; let off = parse_csr t nloc in
  expect t "CM"; let cm = List.map (fun s -> nat_of_int (int_of_string s)) (until_kw t) in
  expect t "END";
  { rv_first = nat_of_int first; rv_on = on; rv_off = off; rv_colmap = cm }

let skip_parlit t =
  let _nr = next_int t in let _nc = next_int t in let p = next_int t in
  if p > 0 then ignore (next_ints t (2 * (p + 1)));
  let nnz = next_int t in
  for _ = 1 to nnz do ignore (next t); ignore (next t); ignore (next t) done

let ptr_of rows = let rec go acc = function [] -> [] | l :: tl -> let a = acc + List.length l in a :: go a tl in 0 :: go 0 rows
let csr_str rows =
  let flat = List.concat rows in
  Printf.sprintf "P %s I %s V %s" (ints_str (ptr_of rows)) (nats_str (List.map fst flat)) (qs_str (List.map snd flat))
let view_str gn (v : qc rview) =
  Printf.sprintf "%d %d %d ON %s OFF %s CM %s END" (int_of_nat v.rv_first) (List.length v.rv_on) gn
    (csr_str v.rv_on) (csr_str v.rv_off) (nats_str v.rv_colmap)

let gather cid key (texts : string list) =
  Printf.printf "%s %s%s\n" cid key (String.concat "" (List.mapi (fun i s -> Printf.sprintf " @%d %s" i s) texts))

let rec chunks n l = if l = [] then [] else
    let rec take k l = if k = 0 then ([], l) else match l with [] -> ([], []) | x :: r -> let (a, b) = take (k - 1) r in (x :: a, b) in
    let (a, b) = take n l in a :: chunks n b

let parse_tail t =
  expect t "VIEWS"; let p = next_int t in
  let views = take p (fun () -> parse_view t) in
  let canon = List.init p (fun _ -> List.init p nat_of_int) in
  let sched = if has_more t && List.hd t.rest = "SCHED" then (ignore (next t); chunks p (next_nats t (p * p))) else canon in
  let tau = if has_more t && List.hd t.rest = "TAU" then (ignore (next t); chunks p (next_nats t (p * p))) else canon in
  (p, views, sched, tau)

(* slice a global vector by the views' blocks *)
let slices (views : qc rview list) (g : qc list) : qc list list =
  let a = Array.of_list g in
  List.map (fun v -> let f = int_of_nat v.rv_first in
             List.init (List.length v.rv_on) (fun i -> if f + i < Array.length a then a.(f + i) else q_of_int 0)) views

let run_case cid (t : toks) =
  let op = next t in
  skip_parlit t;
  match op with
  | "repart" ->
    let n = next_int t in let tmap = next_nats t n in
    let nx = next_int t in let x = next_qs t nx in
    let (p, views, sched, tau) = parse_tail t in
    let gn = List.fold_left (fun a v -> a + List.length v.rv_on) 0 views in
    gather cid "VIEW" (List.map (view_str gn) views);
    let out = q_repartition views tmap sched tau in
    gather cid "NEW" (List.map (fun o ->
        let v = o.ro_view in let nl = List.length v.rv_on in let f = int_of_nat v.rv_first in
        let lrm = List.init nl (fun i -> f + i) in
        let nnz = List.fold_left (fun a r -> a + List.length r) 0 (v.rv_on @ v.rv_off) in
        let firsts = List.map (fun o2 -> int_of_nat o2.ro_view.rv_first) out @ [gn] in
        Printf.sprintf "%s NLR %s LRM %s OCM %s FC %d GC %d NC %d PT %d %d %d %d %d %d %d %d %d %d FCS %s END" (view_str gn v) (nats_str o.ro_nlr)
          (ints_str lrm) (ints_str lrm) f gn nl f (f + nl - 1) f (f + nl - 1) nl nl gn gn (List.length v.rv_colmap) nnz (ints_str firsts)) out);
    gather cid "PKG" (List.map (fun o ->
        let rp = List.map (fun m -> int_of_nat (fst m)) o.ro_recv in
        let rc = List.map (fun m -> List.init (int_of_nat (snd m)) (fun _ -> ())) o.ro_recv in
        let sp = List.map (fun m -> int_of_nat (fst m)) o.ro_send in
        let sx = List.map snd o.ro_send in
        Printf.sprintf "RP %s RI %s SP %s SI %s SX %s END" (ints_str rp) (ints_str (ptr_of rc))
          (ints_str sp) (ints_str (ptr_of sx)) (nats_str (List.concat sx))) out);
    let xa = Array.of_list x in
    let xs = List.map (fun o -> List.map (fun g -> let g = int_of_nat g in if g < Array.length xa then xa.(g) else q_of_int 0) o.ro_nlr) out in
    let b = q_par_mult views tmap sched tau xs in
    gather cid "MULT" (List.map qs_str b)
  | "dscale" ->
    let nb = next_int t in let b = next_qs t nb in
    let ny = next_int t in let y = next_qs t ny in
    let (p, views, _, _) = parse_tail t in
    let gn = List.fold_left (fun a v -> a + List.length v.rv_on) 0 views in
    gather cid "VIEW" (List.map (view_str gn) views);
    let prevs = List.map (fun _ -> []) views in
    let out = q_diagonally_scale views prevs (slices views b) in
    let sc = q_all_scales views prevs in
    gather cid "NEW" (List.map (fun o -> view_str gn (fst o)) out);
    gather cid "B" (List.map (fun o -> qs_str (snd o)) out);
    gather cid "S" (List.map qs_str sc);
    gather cid "U" (List.map2 (fun ys s -> qs_str (q_diagonally_unscale ys s)) (slices views y) sc)
  | "rscale" ->
    let nb = next_int t in let b = next_qs t nb in
    let (p, views, _, _) = parse_tail t in
    let gn = List.fold_left (fun a v -> a + List.length v.rv_on) 0 views in
    gather cid "VIEW" (List.map (view_str gn) views);
    let out = q_row_scale views (slices views b) in
    gather cid "NEW" (List.map (fun o -> view_str gn (fst o)) out);
    gather cid "B" (List.map (fun o -> qs_str (snd o)) out)
  | _ -> Printf.printf "%s UNSUPPORTED %s\n" cid op

let () =
  let ic = open_in Sys.argv.(1) in
  (try while true do
      let line = input_line ic in
      if String.length line > 0 && line.[0] <> '#' then begin
        let t = { rest = List.filter (fun s -> s <> "") (String.split_on_char ' ' line) } in
        let cid = next t in
        (try run_case cid t with
         | Failure m -> Printf.printf "%s ERR %s\n" cid m
         | Not_found -> Printf.printf "%s ERR notfound\n" cid
         | Invalid_argument m -> Printf.printf "%s ERR %s\n" cid m)
      end
    done with End_of_file -> ());
  close_in ic
