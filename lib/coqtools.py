"""Build the Coq development, check property-level theorems and their assumptions, extract the model."""
import os, re, subprocess, time, glob

VERIF = os.path.dirname(os.path.dirname(os.path.abspath(__file__)))
COQ = os.path.join(VERIF, "coq")
ALLOWED_AXIOMS = {
    # stdlib axioms that may appear (named in DESIGN.md section 4); none is expected over F/Qc
    "ClassicalDedekindReals.sig_forall_dec", "ClassicalDedekindReals.sig_not_dec",
    "FunctionalExtensionality.functional_extensionality_dep", "Classical_Prop.classic",
}
FORBIDDEN = r"\b(Admitted|admit|Axiom|Parameter|Conjecture|Hypothesis|Variable)\b|Unset Guard|bypass_check|Admit Obligations|-type-in-type"

def regen_makefile():
    """_CoqProject lists every .v under coq/ (coqdep orders them); Makefile regenerated when the list changes."""
    files = sorted(os.path.relpath(f, COQ) for f in glob.glob(os.path.join(COQ, "**", "*.v"), recursive=True))
    want = "-Q . Raptor\n" + "\n".join(files) + "\n"
    cp = os.path.join(COQ, "_CoqProject"); mk = os.path.join(COQ, "Makefile")
    if (not os.path.exists(cp)) or open(cp).read() != want:
        open(cp, "w").write(want)
    if (not os.path.exists(mk)) or os.path.getmtime(mk) < os.path.getmtime(cp):
        subprocess.run(["coq_makefile", "-f", "_CoqProject", "-o", "Makefile"], cwd=COQ, check=True,
                       capture_output=True)

def make(targets, timeout=1500):
    regen_makefile()
    t0 = time.time()
    p = subprocess.run(["timeout", str(timeout), "make", "-k", "-j16"] + targets, cwd=COQ,
                       capture_output=True, text=True)
    return p.returncode, p.stdout + p.stderr, time.time() - t0

def strip_comments(src):
    out = []; depth = 0; i = 0
    while i < len(src):
        if src.startswith("(*", i): depth += 1; i += 2; continue
        if src.startswith("*)", i) and depth > 0: depth -= 1; i += 2; continue
        if depth == 0: out.append(src[i])
        elif src[i] == "\n": out.append("\n")
        i += 1
    return "".join(out)

def scan_forbidden():
    """Declared axioms / admits / disabled checks anywhere in the development.
       Variable/Hypothesis/Context are allowed inside a Section only."""
    bad = []
    for f in sorted(glob.glob(os.path.join(COQ, "**", "*.v"), recursive=True)):
        depth = 0
        for n, code in enumerate(strip_comments(open(f).read()).split("\n"), 1):
            if re.match(r"\s*Section\b", code): depth += 1
            elif re.match(r"\s*End\b", code) and depth > 0: depth -= 1
            if re.search(r"\b(Admitted|admit|Axiom|Axioms|Parameter|Parameters|Conjecture)\b|Unset Guard|bypass_check|Admit Obligations|Unset Positivity|Unset Universe", code):
                bad.append("%s:%d: %s" % (os.path.relpath(f, COQ), n, code.strip()))
            elif depth == 0 and re.match(r"\s*(Variable|Variables|Hypothesis|Hypotheses|Context)\b", code):
                bad.append("%s:%d: %s" % (os.path.relpath(f, COQ), n, code.strip()))
    return bad

def theorems_in(vfile):
    src = strip_comments(open(os.path.join(COQ, vfile)).read())
    return re.findall(r"^\s*(?:Theorem|Corollary)\s+([A-Za-z0-9_']+)", src, re.M)

def check_props(pid, extra_targets=()):
    """Compile Props/Properties_<pid>.v from scratch (its dependencies through make) and return
       dict(theorems=[...], ok=[...], failed=[...], assumptions={name: text}, log=str, wall=s)."""
    vfile = "Props/Properties_%s.v" % pid
    res = dict(theorems=[], ok=[], failed=[], assumptions={}, log="", wall=0.0, forbidden=[], axioms=[])
    if not os.path.exists(os.path.join(COQ, vfile)):
        res["log"] = "no " + vfile; return res
    res["theorems"] = theorems_in(vfile)
    vo = os.path.join(COQ, vfile + "o")
    if os.path.exists(vo): os.remove(vo)      # force this run to re-check the property file
    rc, log, wall = make([vfile + "o"] + list(extra_targets))
    res["log"] = log[-6000:]; res["wall"] = wall
    res["forbidden"] = scan_forbidden()
    if not os.path.exists(vo):
        res["failed"] = list(res["theorems"]); return res
    # Print Assumptions output appears in the make log in order, one block per theorem
    blocks = re.findall(r"(Closed under the global context|Axioms:\n(?:.+\n?)+?(?=\n\S|\Z|Closed under|COQC|make))", log)
    names = res["theorems"]
    for i, nm in enumerate(names):
        txt = blocks[i].strip() if i < len(blocks) else "MISSING Print Assumptions"
        res["assumptions"][nm] = txt
        if txt.startswith("Closed under"):
            res["ok"].append(nm)
        elif txt.startswith("Axioms:"):
            axs = re.findall(r"^\s*([A-Za-z0-9_.']+)\s*:", txt, re.M)
            res["axioms"] += axs
            if all(a in ALLOWED_AXIOMS for a in axs): res["ok"].append(nm)
            else: res["failed"].append(nm)
        else:
            res["failed"].append(nm)
    return res

def build_extracted(family="sparse", srcs=("conv.ml", "mat.ml", "drv_sparse.ml")):
    """make Extract/Extract_<family>.vo (writes coq/model_<family>.ml) and compile the family's OCaml driver
       (ocaml/_build/<family>/driver). Returns its path or raises."""
    rc, log, wall = make(["Extract/Extract_%s.vo" % family])
    ml = os.path.join(COQ, "model_%s.ml" % family)
    if rc != 0 or not os.path.exists(ml):
        raise RuntimeError("extraction failed:\n" + log[-3000:])
    bd = os.path.join(VERIF, "ocaml", "_build", family)
    os.makedirs(bd, exist_ok=True)
    srcs = list(srcs)
    stamp = os.path.join(bd, "driver")
    newest = max([os.path.getmtime(ml)] + [os.path.getmtime(os.path.join(VERIF, "ocaml", s)) for s in srcs])
    if os.path.exists(stamp) and os.path.getmtime(stamp) >= newest:
        return stamp
    subprocess.run(["cp", ml, os.path.join(bd, "model.ml")], check=True)
    subprocess.run(["cp", ml + "i", os.path.join(bd, "model.mli")], check=True)
    for s in srcs:
        subprocess.run(["cp", os.path.join(VERIF, "ocaml", s), bd], check=True)
    p = subprocess.run(["ocamlfind", "ocamlopt", "-w", "-a", "-O2", "model.mli", "model.ml"] + srcs + ["-o", "driver"],
                       cwd=bd, capture_output=True, text=True)
    if p.returncode != 0:
        raise RuntimeError("ocaml driver build failed:\n" + p.stderr[-3000:])
    return stamp
