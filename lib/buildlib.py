"""Build libraptor.so from /repo's *current working tree* (hash-keyed cache) and family drivers."""
import hashlib, os, re, shutil, subprocess, tempfile, sys, glob

REPO = os.environ.get("RAPTOR_REPO", "/repo")
VERIF = os.path.dirname(os.path.dirname(os.path.abspath(__file__)))
CACHE = os.path.join(VERIF, ".cache")
GUARD = "RAPTOR_VERIF"
MPI_ENV = {
    "OMPI_ALLOW_RUN_AS_ROOT": "1", "OMPI_ALLOW_RUN_AS_ROOT_CONFIRM": "1",
    "OMPI_MCA_rmaps_base_oversubscribe": "1", "OMPI_MCA_btl_vader_single_copy_mechanism": "none",
    "OMPI_MCA_btl": "self,vader", "OMPI_MCA_mpi_yield_when_idle": "1",
}

class InfraError(Exception):
    pass

def source_list():
    """The .cpp files the project's own CMake lists link into libraptor."""
    srcs = ["strength.cpp", "par_strength.cpp"]
    cms = glob.glob(os.path.join(REPO, "raptor", "*", "CMakeLists.txt")) + \
          glob.glob(os.path.join(REPO, "raptor", "util", "linalg", "CMakeLists.txt"))
    for cm in sorted(cms):
        if "/external/" in cm or "/tests/" in cm:
            continue
        for m in re.finditer(r"^\s*([A-Za-z_/0-9]+\.cpp)\s*$", open(cm).read(), re.M):
            f = m.group(1)
            if os.path.exists(os.path.join(REPO, "raptor", f)) and f not in srcs:
                srcs.append(f)
    return srcs

def tree_hash():
    h = hashlib.sha256()
    files = []
    for root, dirs, fs in os.walk(os.path.join(REPO, "raptor")):
        dirs[:] = [d for d in dirs if d not in ("tests", "external")]
        for f in fs:
            if f.endswith((".cpp", ".hpp", ".h", ".txt")):
                files.append(os.path.join(root, f))
    for f in sorted(files):
        h.update(f.encode()); h.update(open(f, "rb").read())
    return h.hexdigest()[:20]

def env():
    e = dict(os.environ); e.update(MPI_ENV); return e

def build_lib(log=None):
    """Returns directory holding libraptor.so built from the current tree."""
    th = tree_hash()
    d = os.path.join(CACHE, "lib-" + th)
    so = os.path.join(d, "libraptor.so")
    if os.path.exists(so):
        os.utime(d, None)
        return d
    os.makedirs(CACHE, exist_ok=True)
    # keep the cache small: only the eight most recently used trees survive
    olds = sorted(glob.glob(os.path.join(CACHE, "lib-*")), key=os.path.getmtime, reverse=True)
    for old in olds[8:]:
        shutil.rmtree(old, ignore_errors=True)
        shutil.rmtree(os.path.join(CACHE, "drv-" + os.path.basename(old)[4:]), ignore_errors=True)
    tmp = tempfile.mkdtemp(prefix="rapverif-")
    try:
        srcs = source_list()
        cmds = []
        for s in srcs:
            o = os.path.join(tmp, s.replace("/", "_") + ".o")
            cmds.append("mpicxx -std=c++11 -O1 -w -fPIC -DUSING_MPI -D%s -I%s -I%s/raptor -c %s/raptor/%s -o %s"
                        % (GUARD, REPO, REPO, REPO, s, o))
        p = subprocess.run(["xargs", "-P", "16", "-I", "{}", "sh", "-c", "{}"], input="\n".join(cmds),
                           text=True, capture_output=True, env=env())
        if p.returncode != 0:
            raise InfraError("libraptor compile failed:\n" + p.stderr[-4000:])
        os.makedirs(d + ".part", exist_ok=True)
        p = subprocess.run("mpicxx -shared -o %s/libraptor.so %s/*.o -llapack -lblas" % (d + ".part", tmp),
                           shell=True, capture_output=True, text=True, env=env())
        if p.returncode != 0:
            raise InfraError("libraptor link failed:\n" + p.stderr[-4000:])
        if os.path.exists(d):
            shutil.rmtree(d)
        os.rename(d + ".part", d)
    finally:
        shutil.rmtree(tmp, ignore_errors=True)
    return d

def build_driver(name, extra_srcs=()):
    """Compile harness/<name>.cpp against the current libraptor. Returns path of executable."""
    libd = build_lib()
    src = os.path.join(VERIF, "harness", name + ".cpp")
    hs = hashlib.sha256()
    for f in [src, os.path.join(VERIF, "harness", "common.hpp")] + list(extra_srcs):
        if os.path.exists(f):
            hs.update(open(f, "rb").read())
    dd = os.path.join(CACHE, "drv-" + os.path.basename(libd)[4:])
    os.makedirs(dd, exist_ok=True)
    exe = os.path.join(dd, name + "-" + hs.hexdigest()[:12])
    if os.path.exists(exe):
        return exe
    p = subprocess.run(["mpicxx", "-std=c++11", "-O1", "-w", "-DUSING_MPI", "-D" + GUARD, "-I" + REPO, "-I" + REPO + "/raptor",
                        "-I" + os.path.join(VERIF, "harness"), src, "-o", exe, "-L" + libd, "-lraptor",
                        "-llapack", "-lblas", "-Wl,-rpath," + libd], capture_output=True, text=True, env=env())
    if p.returncode != 0:
        raise InfraError("driver %s failed to compile (API of /repo changed?):\n%s" % (name, p.stderr[-4000:]))
    return exe

def build_shim():
    """PMPI scheduling shim (harness/pmpi_sched.c) -> .cache/pmpi_sched-<hash>.so"""
    src = os.path.join(VERIF, "harness", "pmpi_sched.c")
    h = hashlib.sha256(open(src, "rb").read()).hexdigest()[:12]
    so = os.path.join(CACHE, "pmpi_sched-%s.so" % h)
    if not os.path.exists(so):
        os.makedirs(CACHE, exist_ok=True)
        p = subprocess.run(["mpicc", "-shared", "-fPIC", "-O1", "-o", so, src], capture_output=True, text=True, env=env())
        if p.returncode != 0: raise InfraError("pmpi shim failed to build:\n" + p.stderr[-2000:])
    return so

def run_driver(exe, casefile, nprocs=1, timeout=600, extra_env=None, args=()):
    """one run; a timeout on a heavily loaded machine (1-minute load above 3/4 of the cores: other checks running beside this
    one) is retried once with three times the limit before it is believed - a genuine hang hangs again"""
    rc, out, err = _run_driver_once(exe, casefile, nprocs, timeout, extra_env, args)
    if rc == 124:
        try: busy = os.getloadavg()[0] > 0.75 * (os.cpu_count() or 16)
        except Exception: busy = False
        if busy: rc, out, err = _run_driver_once(exe, casefile, nprocs, 3 * timeout, extra_env, args)
    return rc, out, err

def _run_driver_once(exe, casefile, nprocs=1, timeout=600, extra_env=None, args=()):
    e = env()
    if extra_env: e.update(extra_env)
    if nprocs and nprocs > 0:
        cmd = ["mpirun", "-n", str(nprocs)]
        for k in (extra_env or {}):
            cmd += ["-x", k]
        cmd += [exe, casefile] + list(args)
    else:
        cmd = [exe, casefile] + list(args)
    import signal
    p = subprocess.Popen(cmd, stdout=subprocess.PIPE, stderr=subprocess.PIPE, text=True, env=e, start_new_session=True)
    try:
        out, err = p.communicate(timeout=timeout)
    except subprocess.TimeoutExpired:
        try: os.killpg(p.pid, signal.SIGKILL)      # mpirun and every rank it started
        except Exception: pass
        try: out, err = p.communicate(timeout=10)
        except Exception: out, err = "", ""
        return 124, out or "", "timeout"
    return p.returncode, out, err

if __name__ == "__main__":
    print(build_lib())
