"""Exact parsing of the number tokens printed by the C++ drivers (C99 hex floats) and the OCaml driver
(binary rationals 0b101/0b10)."""
from fractions import Fraction
import math

def parse_int_tok(s):
    neg = s.startswith('-')
    if neg: s = s[1:]
    v = int(s[2:], 2) if s.startswith('0b') else int(s)
    return -v if neg else v

def parse_num(s):
    """-> Fraction, or a float nan/inf marker string"""
    ls = s.lower()
    if 'nan' in ls: return 'nan'
    if 'inf' in ls: return '-inf' if ls.startswith('-') else 'inf'
    if 'x' in ls and 'b' not in ls.split('x')[0]:
        return Fraction(float.fromhex(s))
    if '/' in s:
        a, b = s.split('/')
        return Fraction(parse_int_tok(a), parse_int_tok(b))
    if ls.startswith('0b') or ls.startswith('-0b'):
        return Fraction(parse_int_tok(s))
    try:
        return Fraction(int(s))
    except ValueError:
        return Fraction(float(s))

def is_num_tok(s):
    try:
        parse_num(s); return True
    except Exception:
        return False

def close(a, b, rtol=1e-9, atol=1e-12):
    if isinstance(a, str) or isinstance(b, str):
        return a == b
    if a == b: return True
    d = abs(a - b)
    return d <= atol or d <= rtol * max(abs(a), abs(b))

def tok_num(fr):
    """Fraction -> input token understood by both drivers (int or p/q)"""
    fr = Fraction(fr)
    if fr.denominator.bit_length() > 60 or abs(fr.numerator).bit_length() > 60:
        # beyond the drivers' native integers: exact hex-float token (both drivers read hex floats exactly)
        f = float(fr)
        if Fraction(f) != fr: raise ValueError("value %s is neither a small fraction nor a double" % fr)
        return f.hex()
    return str(fr.numerator) if fr.denominator == 1 else "%d/%d" % (fr.numerator, fr.denominator)
