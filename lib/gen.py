"""Seeded generators shared by the property modules (one PRNG per run: ctx.rng)."""
from fractions import Fraction
from framework import Mat, mat_from_triples

def rand_val(rng, kind="int"):
    if kind == "int":
        return Fraction(rng.choice([-3, -2, -1, 1, 2, 3, 4, 5, 7]))
    if kind == "dyadic":
        return Fraction(rng.randint(-24, 24) or 1, rng.choice([1, 2, 4, 8]))
    raise ValueError(kind)

def rand_triples(rng, nr, nc, nnz, dup_frac=0.25, zero_frac=0.05, cancel_frac=0.1, kind="int"):
    """unsorted triples with duplicates, explicit zeros and cancelling pairs"""
    trip = []
    if nr == 0 or nc == 0: return trip
    while len(trip) < nnz:
        r = rng.random()
        if trip and r < dup_frac:
            i, j, _ = rng.choice(trip); trip.append((i, j, rand_val(rng, kind)))
        elif trip and r < dup_frac + cancel_frac:
            i, j, v = rng.choice(trip); trip.append((i, j, -v))
        elif r < dup_frac + cancel_frac + zero_frac:
            trip.append((rng.randrange(nr), rng.randrange(nc), Fraction(0)))
        else:
            trip.append((rng.randrange(nr), rng.randrange(nc), rand_val(rng, kind)))
    rng.shuffle(trip)
    return trip

def rand_dims(rng, maxn=7):
    """rectangular, empty and degenerate shapes on purpose"""
    r = rng.random()
    if r < 0.06: return (0, rng.randint(0, 3))
    if r < 0.12: return (rng.randint(1, 4), 0)
    if r < 0.40:
        n = rng.randint(1, maxn); return (n, n)
    return (rng.randint(1, maxn), rng.randint(1, maxn))

def rand_mat(rng, fmt=None, maxn=7, kind="int", dims=None, density=None):
    fmt = fmt or rng.choice(["coo", "csr", "csc"])
    nr, nc = dims or rand_dims(rng, maxn)
    cap = nr * nc
    if density is None:
        nnz = 0 if cap == 0 else rng.choice([0, 1, rng.randint(1, 2 * cap), rng.randint(1, max(1, cap)), rng.randint(1, max(1, cap // 2 + 1))])
    else:
        nnz = int(cap * density)
    trip = rand_triples(rng, nr, nc, min(nnz, 40), kind=kind)
    return mat_from_triples(fmt, nr, nc, trip)

def rand_vec(rng, n, kind="int"):
    return [rand_val(rng, kind) if rng.random() > 0.1 else Fraction(0) for _ in range(n)]
