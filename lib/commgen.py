"""Generator, runner and judge shared by C03 (standard package) and C04 (node-aware package)."""
import re
from fractions import Fraction
import framework as fw, nums


def rand_partition(rng, P, N):
    """monotone first_cols with fc[0]=0, fc[P]=N; empty ranks allowed (also at both ends)"""
    r = rng.random()
    if r < 0.4:          # block-like
        cuts = sorted(rng.sample(range(1, N), min(P - 1, N - 1))) if N > 1 and P > 1 else []
        while len(cuts) < P - 1: cuts.append(N)
        cuts = sorted(cuts)
    elif r < 0.8:        # arbitrary with empties
        cuts = sorted(rng.randint(0, N) for _ in range(P - 1))
    else:                # highly unbalanced: one rank owns (almost) everything
        big = rng.randrange(P)
        cuts = [0] * big + [N] * (P - 1 - big)
    return [0] + cuts + [N]


def owner_of(fc, c):
    for p in range(len(fc) - 1):
        if fc[p] <= c < fc[p + 1]: return p
    return None


def gen_case(rng, cid, P, mode=0, ppn=4, ordering=1, force_shared=False):
    N = rng.choice([max(P - 2, 1), P, P + 3, 2 * P + 5, 3 * P + 11])
    if force_shared: N = rng.choice([2 * P + 5, 3 * P + 11])
    fc = rand_partition(rng, P, N)
    cols = []
    style = rng.random()
    if force_shared: style = 0.9
    shared = None
    if force_shared or (mode != 0 and rng.random() < 0.5 or rng.random() < 0.15):
        shared = sorted(rng.sample(range(N), min(N, rng.randint(2, max(2, N // 2)))))
    for p in range(P):
        cand = [c for c in range(N) if not (fc[p] <= c < fc[p + 1])]
        if fc[p + 1] == fc[p] and rng.random() < 0.5: cand = []      # a rank without rows usually has no halo
        if not cand or style < 0.08: cols.append([]); continue
        if shared is not None:
            cs = [c for c in shared if c in set(cand)]
            extra = rng.sample(cand, min(len(cand), rng.randint(0, 3)))
            cols.append(sorted(set(cs) | set(extra))); continue
        if style < 0.25:       # all-to-all
            cs = cand
        elif style < 0.4:      # single owner
            o = rng.choice(sorted(set(owner_of(fc, c) for c in cand)))
            cs = [c for c in cand if owner_of(fc, c) == o]
            cs = rng.sample(cs, rng.randint(1, len(cs)))
        elif style < 0.5:      # first / last owners only
            owners = sorted(set(owner_of(fc, c) for c in cand))
            pick = {owners[0], owners[-1]}
            cs = [c for c in cand if owner_of(fc, c) in pick]
        else:
            cs = rng.sample(cand, rng.randint(0, len(cand)))
        cols.append(sorted(cs))
    with_on = 1 if rng.random() < 0.3 else 0
    derive = rng.choice([0, 0, 1, 2])
    onkeep = None
    if with_on:
        # every requested column must be kept by its owner
        need = set(c for cs in cols for c in cs)
        onkeep = [[1 if ((fc[p] + i) in need or rng.random() < 0.5) else 0 for i in range(fc[p + 1] - fc[p])] for p in range(P)]
    keep = gkeep = None
    if derive == 1:
        keep = [[1 if rng.random() < 0.6 else 0 for _ in cs] for cs in cols]
    elif derive == 2:
        gkeep = [1 if rng.random() < 0.6 else 0 for _ in range(N)]
    toks = [cid, "comm", mode, ppn, ordering, with_on, derive, P] + fc
    for cs in cols: toks += [len(cs)] + cs
    if derive == 1:
        for k in keep: toks += [len(k)] + k
    if derive == 2: toks += [N] + gkeep
    if with_on:
        for k in onkeep: toks += [len(k)] + k
    line = " ".join(str(x) for x in toks)
    # local ids per rank and (for the derived package) the restricted maps
    lids = [[fc[p] + i for i in range(fc[p + 1] - fc[p]) if (not with_on or onkeep[p][i])] for p in range(P)]
    d = dict(cid=cid, P=P, N=N, fc=fc, cols=cols, lids=lids, with_on=with_on, derive=derive, mode=mode, ppn=ppn,
             ordering=ordering, line=line)
    if derive:
        if derive == 1:
            d["dcols"] = [[c for c, k in zip(cs, kk) if k] for cs, kk in zip(cols, keep)]
            d["dlids"] = lids
        else:
            d["dcols"] = [[c for c in cs if gkeep[c]] for cs in cols]
            d["dlids"] = [[g for g in l if gkeep[g]] for l in lids]
    return d


def split_ranks(toks):
    """'@0 a b @1 c' -> [[a,b],[c]]"""
    out = []
    for t in toks:
        if t.startswith("@"): out.append([])
        elif out: out[-1].append(t)
    return out


def expected(cols, lids):
    """the property's own observable for the deterministic payloads of drv_comm"""
    P = len(cols)
    E = {}
    E["FI"] = [[c for c in cols[p]] for p in range(P)]
    E["FD"] = [[Fraction(c, 2) + 1 for c in cols[p]] for p in range(P)]
    E["FB"] = [[v for c in cols[p] for v in (10 * c, 10 * c + 1)] for p in range(P)]
    E["FBI"] = E["FB"]
    row = lambda g: [((5 * g + t) % 11, Fraction(g) + Fraction(t, 4)) for t in range(g % 3)]
    E["FR"] = [[v for c in cols[p] for v in [len(row(c))] + [x for cv in row(c) for x in cv]] for p in range(P)]
    E["FRP"] = [[v for c in cols[p] for v in [len(row(c))] + [cv[0] for cv in row(c)]] for p in range(P)]
    E["FRQ"] = E["FRP"]
    contrib = {}     # gid -> list of (p, j)
    for p in range(P):
        for j, c in enumerate(cols[p]): contrib.setdefault(c, []).append((p, j))
    def rrow(p, j):
        c = cols[p][j]
        return [((3 * c + p) % 13, Fraction(p + 1) + Fraction(j, 8))] + ([((3 * c + p + 5) % 13, Fraction(-j))] if c % 2 else []) + \
               ([(c % 13, Fraction(p + 1, 2))] if c % 3 else [])
    def rr(g):
        d = {}
        for (p, j) in contrib.get(g, []):
            for (cc, v) in rrow(p, j): d[cc] = d.get(cc, Fraction(0)) + v
        return sorted((cc, v) for cc, v in d.items() if v != 0)
    # rows arriving for one owned index are compared as the operator they represent (entries of one column added up, zeros
    # dropped): the standard package concatenates the rows, the node-aware one adds entries of equal column on the way
    E["RR"] = [[rr(g) for g in lids[q]] for q in range(P)]
    yi = lambda p, j: (p + 1) * 100 + j
    ysel = lambda p, j: -1 if (cols[p][j] + p) % 3 == 0 else cols[p][j]
    E["RS"] = [[1000 * g + sum(Fraction(yi(p, j), 4) for (p, j) in contrib.get(g, [])) for g in lids[q]] for q in range(P)]
    E["RSI"] = [[1000 * g + sum(yi(p, j) for (p, j) in contrib.get(g, [])) for g in lids[q]] for q in range(P)]
    E["RM"] = [[max([0] + [yi(p, j) for (p, j) in contrib.get(g, [])]) for g in lids[q]] for q in range(P)]
    E["RL"] = [[max([-1] + [ysel(p, j) for (p, j) in contrib.get(g, [])]) for g in lids[q]] for q in range(P)]
    yz = lambda p, j: 0 if (cols[p][j] + p + j) % 3 == 0 else -(p + 1) * 10 - j
    E["RMN"] = [[max([-1000] + [yz(p, j) for (p, j) in contrib.get(g, [])]) for g in lids[q]] for q in range(P)]
    E["RMND"] = E["RMN"]
    E["RB"] = [[v for g in lids[q] for v in (sum(yi(p, j) for (p, j) in contrib.get(g, [])),
                                                 sum(Fraction(yi(p, j), 2) for (p, j) in contrib.get(g, [])))] for q in range(P)]
    return E


def rows_eq(a_toks, rows):
    """a_toks: 'k c v c v ... k c v ...' ; rows: canonical [(col, value)] per owned index"""
    pos = 0; got = []
    try:
        for _ in rows:
            k = int(a_toks[pos]); pos += 1; d = {}
            for _ in range(k):
                cc = int(a_toks[pos]); v = nums.parse_num(a_toks[pos + 1]); pos += 2
                if isinstance(v, str): return False
                d[cc] = d.get(cc, Fraction(0)) + Fraction(v)
            got.append(sorted((cc, v) for cc, v in d.items() if v != 0))
    except (IndexError, ValueError): return False
    if pos != len(a_toks): return False
    return all(len(g) == len(r) and all(a[0] == b[0] and nums.close(a[1], b[1]) for a, b in zip(g, r)) for g, r in zip(got, rows))


def vec_eq(a_toks, b_vals):
    if len(a_toks) != len(b_vals): return False
    for x, y in zip(a_toks, b_vals):
        if not nums.close(nums.parse_num(x), Fraction(y)): return False
    return True


def std_dump_tokens(pkg_rank_toks):
    """'std R ... S ...' -> tokens after 'std' (what the OCaml commchk op reads)"""
    assert pkg_rank_toks[0] == "std"
    return pkg_rank_toks[1:]


def judge_pkg(ctx, c, res, pre, cols, lids, tag):
    """O: every buffer of the implementation against the property's definition."""
    P = c["P"]
    E = expected(cols, lids)
    ok = True
    for key, exp in E.items():
        got = res.get(pre + key)
        if got is None:
            ctx.signal("O", "%s:%s:missing" % (tag, pre + key), "no output for %s" % (pre + key), case=c["line"]); ok = False; continue
        ranks = split_ranks(got)
        for p in range(P):
            if p >= len(ranks) or not (rows_eq(ranks[p], exp[p]) if key == "RR" else vec_eq(ranks[p], exp[p])):
                kind = "forward" if key.startswith("F") else "reverse"
                ctx.signal("O", "%s:%s%s:%s" % (tag, "derived_" if pre else "", kind, key),
                           "rank %d: implementation %s, required %s" % (p, " ".join(ranks[p]) if p < len(ranks) else None,
                                                                         [str(x) for x in exp[p]]), case=c["line"])
                ok = False; break
    return ok


def run_and_judge(ctx, cases, P, tag, timeout=600, known_hang=False):
    lines = [c["line"] for c in cases]
    impl, crashed = fw.run_impl_lines(ctx, "drv_comm", lines, nprocs=P, name="comm_%s_%d" % (tag, P), timeout=timeout)
    model_lines = []; tap_lines = []
    for c in cases:
        ctx.evaluations += 1
        ctx.count("P=%d" % P); ctx.count("mode=%d" % c["mode"])
        if c["with_on"]: ctx.count("with_on_proc_map")
        if c["derive"]: ctx.count("derived_%d" % c["derive"])
        if any(c["fc"][p] == c["fc"][p + 1] for p in range(P)): ctx.count("empty_rank")
        nmsg = sum(1 for cs in c["cols"] if cs)
        if nmsg >= 1 and P >= 2: ctx.nontrivial.add(c["line"].split(" ", 1)[1])
        ctx.sample(c["line"])
        r = impl.get(c["cid"])
        if not r or not any(k == "DONE" for k, _ in r):
            ctx.signal("O", "%s:crash_or_hang" % tag, "implementation did not complete the case: %s" % (r[:1] if r else None,), case=c["line"])
            continue
        res = {k: v for k, v in r}
        judge_pkg(ctx, c, res, "", c["cols"], c["lids"], tag)
        if c["derive"]:
            judge_pkg(ctx, c, res, "D", c["dcols"], c["dlids"], tag)
        if c["mode"] == 1:
            # the package pair of a distributed matrix (init_tap_communicators) and its derived pair (update_tap_comm)
            ctx.count("matrix_package_pairs")
            judge_pkg(ctx, c, res, "M3", c["cols"], c["lids"], tag); judge_pkg(ctx, c, res, "M2", c["cols"], c["lids"], tag)
            if c["derive"] == 2:
                ctx.count("derived_matrix_package_pairs")
                judge_pkg(ctx, c, res, "N3", c["dcols"], c["dlids"], tag); judge_pkg(ctx, c, res, "N2", c["dcols"], c["dlids"], tag)
        if c["mode"] in (1, 2):
            for pre, cols, lids in (("", c["cols"], c["lids"]),) + ((("D", c["dcols"], c["dlids"]),) if c["derive"] else ()):
                ranks = split_ranks(res[pre + "PKG"])
                toks = [c["cid"] + pre, "tapchk", P, 1 if c["mode"] == 1 else 0]
                for cs in cols: toks += [len(cs)] + cs
                for l in lids: toks += [len(l)] + l
                toks += [c["N"] + 1]
                for rk in ranks:
                    assert rk[0] == "tap"
                    toks += rk[1:]
                tap_lines.append((c, pre, " ".join(str(x) for x in toks), res))
        if c["mode"] == 0:
            for pre, cols, lids in (("", c["cols"], c["lids"]),) + ((("D", c["dcols"], c["dlids"]),) if c["derive"] else ()):
                ranks = split_ranks(res[pre + "PKG"])
                big = c["N"] + 1
                toks = [c["cid"] + pre, "commchk", P] + c["fc"]
                for cs in cols: toks += [len(cs)] + cs
                for l in lids: toks += [len(l)] + l
                toks += [big]
                for rk in ranks: toks += std_dump_tokens(rk)
                model_lines.append((c, pre, cols, lids, " ".join(str(x) for x in toks), res))
    if model_lines:
        cf = fw.write_cases(ctx, "commchk_%s_%d.cases" % (tag, P), [m[4] for m in model_lines])
        rc, mout, _, err = fw.run_model(ctx, cf)
        if rc != 0: ctx.signal("K", "modeldriver", "model driver failed: %s" % err[-300:])
        for c, pre, cols, lids, line, res in model_lines:
            mr = {k: v for k, v in mout.get(c["cid"] + pre, [])}
            ctx.compared += 1
            chk = mr.get("CHK")
            if not chk or "0" in chk[1::2]:
                ctx.signal("K", "%s:checker" % tag, "verified checker rejects the implementation's package: %s" % (chk,), case=c["line"],
                           extra=dict(model_case=line))
            # the construction model reproduces the dumped package only for the directly built one
            if not pre and not c["with_on"]:
                if mr.get("BUILD") != ["1"]:
                    ctx.signal("K", "%s:build" % tag, "construction model differs from the implementation's package", case=c["line"],
                               extra=dict(model_case=line))
            for key in ("FI", "FBI", "FBX", "RSI", "RM", "RL"):
                # FBX: the model's scalar exchange through the expanded package against the implementation's block exchange (FBI)
                a = split_ranks(res.get(pre + ("FBI" if key == "FBX" else key), [])); b = split_ranks(mr.get(key, []))
                if a != b:
                    ctx.signal("K", "%s:%s" % (tag, key), "model %s vs implementation %s" % (b, a), case=c["line"],
                               extra=dict(model_case=line))
                    break

    if tap_lines:
        cf = fw.write_cases(ctx, "tapchk_%s_%d.cases" % (tag, P), [m[2] for m in tap_lines])
        rc, mout, _, err = fw.run_model(ctx, cf)
        if rc != 0: ctx.signal("K", "modeldriver", "model driver failed: %s" % err[-300:])
        for c, pre, line, res in tap_lines:
            mr = {k: v for k, v in mout.get(c["cid"] + pre, [])}
            ctx.compared += 1
            chk = mr.get("CHK")
            if not chk or "0" in chk[1::2]:
                ctx.signal("K", "%s:checker" % tag, "verified checker rejects the implementation's node-aware package: %s %s" % (chk, mout.get(c["cid"] + pre)),
                           case=c["line"], extra=dict(model_case=line))
            for key in ("FI", "FBI", "RSI", "RM", "RL", "RMN"):
                a = split_ranks(res.get(pre + key, [])); b = split_ranks(mr.get(key, []))
                if a != b:
                    ctx.signal("K", "%s:%s" % (tag, key), "model %s vs implementation %s" % (b, a), case=c["line"],
                               extra=dict(model_case=line))
                    break
