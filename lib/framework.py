"""Common machinery of ./check: context, running both sides, comparing, verdicts, evidence, replays."""
import fcntl, json, os, random, re, subprocess, sys, tempfile, time, shutil
from fractions import Fraction
import buildlib, coqtools, nums

VERIF = buildlib.VERIF
TRUSTED_BASE_COMMON = [
    "Coq 8.16.1 kernel (coqc); vm_compute only in Examples/finite sweeps; no native_compute",
    "extraction: ExtrOcamlBasic only (bool, option, list, prod, unit, sumbool -> OCaml); no Extract Constant / other Extract Inductive; OCaml 4.13.1",
    "ocaml/conv.ml, mat.ml, ops_*.ml, driver.ml (parsing/printing glue around the extracted model)",
    "harness/*.cpp drivers calling raptor's public API, lib/*.py (generators, differ, tolerances 1e-9 rel / 1e-12 abs, exact on integer/dyadic data)",
    "model = exact arithmetic over Qc; floating-point rounding not modelled",
    "Open MPI 4.1.4, LAPACK dgetrf/dgetrs, std::sort (assumed to sort)",
]


class Ctx:
    def __init__(self, pid, tier, seed, replay=None):
        self.pid, self.tier, self.seed, self.replay = pid, tier, seed, replay
        self.rng = random.Random((seed * 1000003) ^ hash(pid) % 65536 if False else seed * 1000003 + sum(map(ord, pid)))
        self.t0 = time.time()
        self.thm = None
        self.evaluations = 0
        self.nontrivial = set()
        self.samples = []
        self.dist = {}
        self.compared = 0
        self.signals = []          # dicts: kind in T/K/O, sig, detail, case
        self.notes = []
        self.skipped_borderline = 0
        self.tmp = tempfile.mkdtemp(prefix="rapverif-run-")
        self.ocaml = None

    def quick(self): return self.tier == "quick"
    def scale(self, q, t): return q if self.tier == "quick" else t
    def count(self, key, n=1): self.dist[key] = self.dist.get(key, 0) + n
    def sample(self, s):
        if len(self.samples) < 4: self.samples.append(s if len(str(s)) < 600 else str(s)[:600] + "...")
    def signal(self, kind, sig, detail, case=None, extra=None):
        d = dict(kind=kind, sig=sig, detail=detail, case=case)
        if extra: d.update(extra)
        self.signals.append(d)
    def cleanup(self): shutil.rmtree(self.tmp, ignore_errors=True)


def parse_out(text):
    """driver output -> {cid: [(key, [tokens])]} (lines of unknown shape ignored)"""
    out = {}
    for line in text.splitlines():
        t = line.split()
        if len(t) < 2: continue
        out.setdefault(t[0], []).append((t[1], t[2:]))
    return out


def write_cases(ctx, name, lines):
    p = os.path.join(ctx.tmp, name)
    with open(p, "w") as f:
        f.write("\n".join(lines) + "\n")
    return p


def run_impl(ctx, driver, casefile, nprocs=0, env=None, timeout=900, args=()):
    exe = buildlib.build_driver(driver)
    rc, out, err = buildlib.run_driver(exe, casefile, nprocs=nprocs, timeout=timeout, extra_env=env, args=args)
    return rc, parse_out(out), out, err


DRAIN_DEFAULT = "1"      # VERIF_DRAIN=0 switches the look for unreceived messages off

def run_impl_lines(ctx, driver, lines, nprocs=0, env=None, timeout=900, args=(), name="cases", max_restarts=12):
    """Run the driver over case lines; when the process dies, the first case without output is recorded as
       crashed ('CRASH' result) and the remaining cases are re-run in a fresh process."""
    results = {}; crashed = []
    todo = list(lines); n = 0; hangs = 0
    if nprocs and os.environ.get("VERIF_DRAIN", DRAIN_DEFAULT) != "0":
        env = dict(env or {}); env["VERIF_DRAIN"] = "1"      # distributed drivers: look for unreceived messages after every case
    if ctx.quick(): timeout = min(timeout, 300)     # a hang must not stall the per-change tier
    while todo and n <= max_restarts and hangs < 2:
        cf = write_cases(ctx, "%s.%d" % (name, n), todo)
        keep = os.environ.get("VERIF_KEEP_CASES")
        if keep and n == 0:
            os.makedirs(keep, exist_ok=True)
            shutil.copy(cf, os.path.join(keep, "%s.%d.%s.cases" % (driver, nprocs or 0, name)))
        rc, out, raw, err = run_impl(ctx, driver, cf, nprocs=nprocs, env=env, timeout=timeout, args=args)
        results.update(out)
        if rc == 0: break
        if rc == 124: hangs += 1
        missing = [i for i, l in enumerate(todo) if l.split()[0] not in out]
        if not missing: break
        first = missing[0]
        cid = todo[first].split()[0]
        results[cid] = [("CRASH", ["rc=%s" % rc, (err or "")[-200:].replace("\n", " ")])]
        crashed.append(cid)
        todo = todo[first + 1:]; n += 1
    for cid, kv in results.items():
        for key, toks in kv:
            if key == "STRAYMSG":
                line = next((l for l in lines if l.split()[0] == cid), cid)
                ctx.signal("O", "stray_messages:%s" % driver, "messages were sent that no rank received (they stay queued and are matched by a later "
                           "operation with the same tag): per rank %s" % " ".join(toks), case=line)
    return results, crashed


def model_driver(ctx, family, srcs):
    """build (under the global lock) and remember the extracted driver of another family"""
    cache = ctx.__dict__.setdefault("_drivers", {})
    if family not in cache:
        with Lock():
            cache[family] = coqtools.build_extracted(family, srcs)
    return cache[family]


def run_model(ctx, casefile, timeout=900, driver=None):
    try:
        p = subprocess.run([driver or ctx.ocaml, casefile], capture_output=True, text=True, timeout=timeout)
    except subprocess.TimeoutExpired:
        return 124, {}, "", "timeout"
    return p.returncode, parse_out(p.stdout), p.stdout, p.stderr


def toks_equal(a, b, rtol=1e-9, atol=1e-12):
    """token lists: numbers by tolerance (exact when equal), words exactly"""
    if len(a) != len(b): return False
    for x, y in zip(a, b):
        if x == y: continue
        try:
            fx, fy = nums.parse_num(x), nums.parse_num(y)
        except Exception:
            return False
        if not nums.close(fx, fy, rtol, atol): return False
    return True


# ---------------- matrices in boundary form ----------------
class Mat:
    """fmt, nr, nc, idx1, idx2, vals (Fractions)"""
    def __init__(self, fmt, nr, nc, idx1, idx2, vals):
        self.fmt, self.nr, self.nc, self.idx1, self.idx2, self.vals = fmt, nr, nc, list(idx1), list(idx2), list(vals)
    @property
    def nnz(self): return len(self.idx2)
    def tokens(self):
        return [self.fmt, str(self.nr), str(self.nc), str(self.nnz)] + [str(i) for i in self.idx1] + \
               [str(i) for i in self.idx2] + [nums.tok_num(v) for v in self.vals]
    def triples(self):
        if self.fmt == "coo":
            return [(self.idx1[k], self.idx2[k], self.vals[k]) for k in range(self.nnz)]
        out = []
        n = len(self.idx1) - 1
        for i in range(n):
            for k in range(self.idx1[i], self.idx1[i + 1]):
                out.append((i, self.idx2[k], self.vals[k]) if self.fmt == "csr" else (self.idx2[k], i, self.vals[k]))
        return out
    def dense(self):
        d = {}
        for (i, j, v) in self.triples():
            d[(i, j)] = d.get((i, j), Fraction(0)) + v
        return {k: v for k, v in d.items() if v != 0}
    def lines(self):
        """per compressed line: list of (idx, val); for coo: single list of triples"""
        if self.fmt == "coo": return [self.triples()]
        n = len(self.idx1) - 1
        return [[(self.idx2[k], self.vals[k]) for k in range(self.idx1[i], self.idx1[i + 1])] for i in range(n)]


def mat_from_triples(fmt, nr, nc, trip):
    """build boundary arrays of the given format from (i,j,v) triples, keeping their relative order"""
    if fmt == "coo":
        return Mat("coo", nr, nc, [t[0] for t in trip], [t[1] for t in trip], [t[2] for t in trip])
    n = nr if fmt == "csr" else nc
    buckets = [[] for _ in range(n)]
    for (i, j, v) in trip:
        if fmt == "csr": buckets[i].append((j, v))
        else: buckets[j].append((i, v))
    ptr = [0]
    for b in buckets: ptr.append(ptr[-1] + len(b))
    flat = [e for b in buckets for e in b]
    return Mat(fmt, nr, nc, ptr, [e[0] for e in flat], [e[1] for e in flat])


def parse_mat_tokens(toks):
    """tokens of 'fmt nr nc nnz I1 ... I2 ... V ...' -> Mat (values exact Fractions or nan strings)"""
    fmt, nr, nc, nnz = toks[0], int(toks[1]), int(toks[2]), int(toks[3])
    i1 = toks.index("I1"); i2 = toks.index("I2"); iv = toks.index("V")
    idx1 = [int(x) for x in toks[i1 + 1:i2]]
    idx2 = [int(x) for x in toks[i2 + 1:iv]]
    vals = [nums.parse_num(x) for x in toks[iv + 1:]]
    return Mat(fmt, nr, nc, idx1, idx2, vals)


def mats_equal_canonical(a, b, rtol=1e-9, atol=1e-12):
    """same format, dims, pointer array, and per-line multisets of (index, value)"""
    if (a.fmt, a.nr, a.nc) != (b.fmt, b.nr, b.nc): return False, "format/dims %s vs %s" % ((a.fmt, a.nr, a.nc), (b.fmt, b.nr, b.nc))
    if a.nnz != b.nnz: return False, "nnz %d vs %d" % (a.nnz, b.nnz)
    if a.fmt != "coo" and a.idx1 != b.idx1: return False, "pointer arrays differ"
    la, lb = a.lines(), b.lines()
    for k, (x, y) in enumerate(zip(la, lb)):
        key = lambda e: tuple((float(c) if not isinstance(c, str) else 0.0) for c in e)
        xs, ys = sorted(x, key=key), sorted(y, key=key)
        for e, f in zip(xs, ys):
            if e[:-1] != f[:-1] or not nums.close(e[-1], f[-1], rtol, atol):
                return False, "line %d: %s vs %s" % (k, e, f)
    return True, ""


def dense_equal(d1, d2, rtol=1e-9, atol=1e-12):
    for k in set(d1) | set(d2):
        x, y = d1.get(k, Fraction(0)), d2.get(k, Fraction(0))
        if not nums.close(x, y, rtol, atol):
            return False, "entry %s: %s vs %s" % (k, x, y)
    return True, ""


# ---------------- known findings / verdict / evidence ----------------
def load_known(pid):
    p = os.path.join(VERIF, "known_findings.jsonl")
    out = []
    if os.path.exists(p):
        for line in open(p):
            line = line.strip()
            if not line or line.startswith("#"): continue
            try:
                d = json.loads(line)
            except Exception:
                continue
            if d.get("property") == pid: out.append(d)
    return out


def finish(ctx, level="proof", extra_cov=None, assumptions=None, technique_note=""):
    """Turn collected signals into the exit status, print VIOLATION / KNOWN-FINDING lines, write evidence."""
    known = load_known(ctx.pid)
    open_known = [k for k in known if k.get("status") == "open"]
    thm = ctx.thm or dict(theorems=[], ok=[], failed=[], assumptions={}, forbidden=[], log="")
    for nm in thm["failed"]:
        ctx.signal("T", "theorem:" + nm, "theorem %s does not check (or its assumptions are not clean): %s"
                   % (nm, thm["assumptions"].get(nm, "did not compile")), extra=dict(log=thm["log"][-1500:]))
    for b in thm["forbidden"]:
        ctx.signal("T", "forbidden", "forbidden declaration in the development: " + b)
    if not thm["theorems"]:
        ctx.signal("T", "notheorems", "no property-level theorems found for " + ctx.pid)
    viol = []          # (signal, is_O)
    known_hits = {}
    for s in ctx.signals:
        if s["kind"] == "O":
            hit = None
            for k in open_known:
                if re.search(k["sig"], s["sig"]): hit = k; break
            if hit is not None:
                known_hits.setdefault(hit["id"], (hit, s))
                continue
        viol.append(s)
    for kid, (k, s) in known_hits.items():
        print("KNOWN-FINDING: property=%s %s [%s]" % (ctx.pid, k["what"], kid))
    rc = 0
    rep_dir = os.path.join(VERIF, "replays"); os.makedirs(rep_dir, exist_ok=True)
    if viol:
        rc = 1
        Os = [s for s in viol if s["kind"] == "O"]
        first = Os[0] if Os else viol[0]
        rp = os.path.join(rep_dir, "%s-%s-%d.json" % (ctx.pid, ctx.tier, ctx.seed))
        json.dump(dict(property=ctx.pid, seed=ctx.seed, tier=ctx.tier, first=first,
                       all=[dict(kind=s["kind"], sig=s["sig"], detail=s["detail"]) for s in viol[:50]]),
                  open(rp, "w"), indent=1, default=str)
        if Os:
            print("VIOLATION property=%s replay=%s" % (ctx.pid, rp))
        else:
            print("VIOLATION property=%s replay=%s no-failing-input-found" % (ctx.pid, rp))
        for s in viol[:8]:
            print("  [%s] %s: %s" % (s["kind"], s["sig"], str(s["detail"])[:300]))
    wall = time.time() - ctx.t0
    cov = dict(
        obligations=len(thm["theorems"]), discharged=len(thm["ok"]),
        checker_cmd="cd coq && coq_makefile -f _CoqProject -o Makefile && make -k -j16 Props/Properties_%s.vo (full .vo build)" % ctx.pid,
        trusted_base=TRUSTED_BASE_COMMON + ["Print Assumptions: " + "; ".join(sorted(set(
            "%s -> %s" % (k, v.replace("\n", " ")) for k, v in thm["assumptions"].items())))[:3000]],
        theorems=thm["theorems"],
        evaluations=ctx.evaluations, distinct_nontrivial=len(ctx.nontrivial),
        traces_validated_against_impl=ctx.compared,
        rule=getattr(ctx, "rule", ""),
        samples=ctx.samples or ["(no cases)"],
        input_distribution=ctx.dist,
        borderline_skipped=ctx.skipped_borderline,
        known_findings_seen=sorted(known_hits.keys()),
        signals=dict(T=sum(1 for s in ctx.signals if s["kind"] == "T"),
                     K=sum(1 for s in ctx.signals if s["kind"] == "K"),
                     O=sum(1 for s in ctx.signals if s["kind"] == "O")),
        notes=ctx.notes,
    )
    if extra_cov: cov.update(extra_cov)
    ev = dict(property_id=ctx.pid, tier=ctx.tier, seed=ctx.seed, level=level, coverage=cov,
              assumptions=assumptions or [], wall_s=round(wall, 2), violations=len(viol))
    # runs against a private patched copy of the sources (RAPTOR_REPO, seeded-change trials) do not touch evidence/
    evdir = os.path.join(VERIF, "evidence") if buildlib.REPO == "/repo" else os.path.join(buildlib.CACHE, "evidence-trial")
    os.makedirs(evdir, exist_ok=True)
    json.dump(ev, open(os.path.join(evdir, ctx.pid + ".json"), "w"), indent=1, default=str)
    print("%s %s: theorems %d/%d, cases %d (nontrivial %d), compared %d, signals %s, %.1fs -> %s" % (
        ctx.pid, ctx.tier, len(thm["ok"]), len(thm["theorems"]), ctx.evaluations, len(ctx.nontrivial),
        ctx.compared, cov["signals"], wall, "FAIL" if rc else "ok"))
    return rc


class Lock:
    def __enter__(self):
        os.makedirs(buildlib.CACHE, exist_ok=True)
        self.f = open(os.path.join(buildlib.CACHE, "lock"), "w")
        fcntl.flock(self.f, fcntl.LOCK_EX); return self
    def __exit__(self, *a):
        fcntl.flock(self.f, fcntl.LOCK_UN); self.f.close()
