#!/bin/sh
# Baseline test suite with the verification guard OFF (the guard is only ever defined by /verif's own builds).
set -e
export OMPI_ALLOW_RUN_AS_ROOT=1 OMPI_ALLOW_RUN_AS_ROOT_CONFIRM=1 OMPI_MCA_rmaps_base_oversubscribe=1
cmake -G Ninja -B /repo/_build -S /repo >/dev/null
cmake --build /repo/_build -j16 -- -k 0 || true
ctest --test-dir /repo/_build -j8 --timeout 900
